"""C16 worker: ONE dictionary per process (Field.Def, Message.Def, Group.Contexts and the unique-name counter are process-global).

stdin: one JSON job
  {repo, xml, version, app, prefix, out_root, pkg, mode: 'api'|'cli', init_file: bool, plans: [...], seg_seed: int}
stdout: one JSON line with
  gen:      {'ok': files} | {'err': class, 'msg': text}
  imp:      {'ok': true} | {'err': class, 'msg', 'where': module}
  module:   raw classes of the generated modules, in definition order
  loaded:   Entries of header / trailer / every message with references followed to the class objects
  checks:   anomalies seen while introspecting (Required list, _List wiring, value constants)
  runs:     one result per plan (build / encode / decode / validate / frame)
"""
import asyncio
import importlib
import io
import itertools
import json
import os
import random
import sys
import contextlib


def err_name(exc):
    if isinstance(exc, RecursionError):
        return 'other'
    for cls, n in ((UnicodeError, 'unicode'), (KeyError, 'key'), (IndexError, 'index'), (ValueError, 'value'),
                   (TypeError, 'type'), (AttributeError, 'attr')):
        if isinstance(exc, cls):
            return n
    return 'other'


def err(exc, **kw):
    d = {'err': err_name(exc), 'cls': type(exc).__name__, 'msg': str(exc)[:300]}
    tb = exc.__traceback__
    while tb is not None:                      # the generated file the exception comes from, if any
        fn = tb.tb_frame.f_code.co_filename
        if os.sep + 'out' + os.sep in fn:
            d['file'] = os.path.basename(fn)
        tb = tb.tb_next
    d.update(kw)
    return d


class FakeTransport(asyncio.Transport):
    def __init__(self):
        super().__init__()
        self.writes = []
        self.closed = 0

    def get_extra_info(self, name, default=None):
        return ('peer', 1) if name == 'peername' else default

    def write(self, data):
        self.writes.append(bytes(data))

    def close(self):
        self.closed += 1

    def is_closing(self):
        return self.closed > 0

    def abort(self):
        self.close()


# ------------------------------------------------------------------------------------------------ generation
def generate(job):
    if job.get('pregen') is not None:
        return job['pregen']          # generated earlier, by `main_schedule` in another process
    out_dir = os.path.join(job['out_root'], job['pkg'])
    buf = io.StringIO()
    try:
        with contextlib.redirect_stdout(buf):
            if job['mode'] == 'cli':
                from nasdaq_protocols.fix import codegen
                os.makedirs(out_dir, exist_ok=True)        # click.Path(exists=True)
                args = ['--spec-file', job['xml'], '--app-name', job['app'], '--op-dir', out_dir, '--prefix', job['prefix'],
                        '--init-file' if job['init_file'] else '--no-init-file', '--fix-version', job['version']]
                codegen.generate.main(args, standalone_mode=False)
                files = sorted(os.listdir(out_dir))
            else:
                from nasdaq_protocols.fix.parser import parse, Generator
                g = Generator(parse(job['xml'], job['version']), job['app'], out_dir, job['prefix'],
                              generate_init_file=job['init_file'])
                files = sorted(os.path.basename(f) for f in g.generate())
        return {'ok': files}
    except BaseException as e:  # noqa  (click raises SystemExit subclasses for usage errors)
        return err(e)


# ------------------------------------------------------------------------------------------------ introspection
def ref_of(fix, entry):
    d = entry.entry_def
    if isinstance(d, type) and issubclass(d, fix.GroupContainer):
        u = d.__name__
        return ['G', d.CountCls.__name__, u[:-5] if u.endswith('_List') else '?' + u, bool(entry.required)]
    if isinstance(d, type) and issubclass(d, fix.Field):
        return ['F', d.__name__, bool(entry.required)]
    return ['?', repr(d), bool(entry.required)]


def tree_of(fix, cls, checks, depth=0):
    out = []
    if depth > 40:
        return [['LOOP']]
    req = []
    for entry in cls.Entries:
        d = entry.entry_def
        if isinstance(d, type) and issubclass(d, fix.GroupContainer):
            out.append(['G', d.Name, d.Tag, d.CountCls.FieldType.__name__, bool(entry.required),
                        tree_of(fix, d.GroupCls, checks, depth + 1)])
            if d.Name != d.CountCls.Name or d.Tag != d.CountCls.Tag:
                checks.append(f'{d.__name__}: Name/Tag differ from its CountCls')
        else:
            out.append(['F', d.Name, d.Tag, d.FieldType.__name__, bool(entry.required)])
        if entry.required:
            req.append(d.Tag)
    if list(cls.Required) != req:
        checks.append(f'{cls.__name__}.Required = {list(cls.Required)} but required entries are {req}')
    return out


def introspect(job, res):
    from nasdaq_protocols import fix
    pkg = job['pkg']
    mp = (job['prefix'] + '_' if job['prefix'] else '') + 'fix_' + job['app']
    mods = {}
    sys.path.insert(0, job['out_root'])
    for short in ('fields', 'groups', 'bodies', 'messages'):
        name = f'{pkg}.{mp}_{short}'
        try:
            mods[short] = importlib.import_module(name)
        except BaseException as e:  # noqa
            res['imp'] = err(e, where=short)
            return None
    try:
        mods['app'] = importlib.import_module(f'{pkg}.app')
        if job['init_file']:
            mods['pkg'] = importlib.import_module(pkg)
    except BaseException as e:  # noqa
        res['imp'] = err(e, where='app')
        return None
    res['imp'] = {'ok': True}
    checks = res['checks']
    own = lambda m, base: [c for c in vars(m).values()
                           if isinstance(c, type) and issubclass(c, base) and c.__module__ == m.__name__]
    module = {'session': None, 'fields': [], 'groups': [], 'bodies': [], 'messages': []}
    for c in own(mods['fields'], fix.Field):
        vals = []
        for k, v in c.Values.items():
            vals.append([str(k), isinstance(k, str), v])
            if not hasattr(c, v) or getattr(c, v) != k or type(getattr(c, v)) is not type(k):
                checks.append(f'{c.__name__}.{v} is not the enum value {k!r}')
            if not isinstance(k, c.FieldType.type_cls) and not (c.FieldType.type_cls is bool and isinstance(k, str)):
                # the constant of a bool field is the wire character 'Y'/'N' — as the template writes it
                checks.append(f'{c.__name__}.{v} = {k!r} is not a {c.FieldType.type_cls.__name__}')
        module['fields'].append([c.__name__, str(c.Tag), c.FieldType.__name__, vals])
        if c.Name != c.__name__ or not isinstance(c.Tag, int):
            checks.append(f'{c.__name__}: Name {c.Name!r} / Tag {c.Tag!r}')
        if fix.Field.Def.get(c.Tag) is not c or fix.Field.Def.get(c.Name) is not c:
            checks.append(f'{c.__name__}: not registered in Field.Def under its tag and name')
    gm = mods['groups']
    for c in own(gm, fix.Group):
        lst = getattr(gm, c.__name__ + '_List', None)
        if lst is None or not issubclass(lst, fix.GroupContainer) or lst.GroupCls is not c:
            checks.append(f'{c.__name__}: no matching {c.__name__}_List container')
            module['groups'].append([c.__name__, '?', [ref_of(fix, e) for e in c.Entries]])
        else:
            module['groups'].append([c.__name__, lst.CountCls.__name__, [ref_of(fix, e) for e in c.Entries]])
    n_lists = len(own(gm, fix.GroupContainer))
    if n_lists != len(module['groups']):
        checks.append(f'{n_lists} container classes for {len(module["groups"])} group classes')
    for c in own(mods['bodies'], fix.DataSegment):
        module['bodies'].append([c.__name__, [ref_of(fix, e) for e in c.Entries]])
    loaded = {'fields': [], 'messages': []}
    for c in own(mods['fields'], fix.Field):
        # Values as the class object has them (key text, is-a-str, constant name) and the constants read back one by one
        vals = [[str(k), isinstance(k, str), v] for k, v in c.Values.items()]
        consts = [[v, repr(getattr(c, v, None))] for v in c.Values.values()]
        loaded['fields'].append([c.Name, c.Tag, c.FieldType.__name__, c.FieldType.type_cls.__name__, vals, consts])
    loaded['header'] = tree_of(fix, mods['bodies'].Header, checks)
    loaded['trailer'] = tree_of(fix, mods['bodies'].Trailer, checks)
    base_msg = mods['app'].Message
    for c in own(mods['messages'], base_msg):
        seg = c.SegmentCls
        ann = []
        for k, v in c.__annotations__.items():
            if k in ('Header', 'Body', 'Trailer'):
                continue
            if isinstance(v, type) and issubclass(v, fix.GroupContainer):
                ann.append(['G', k, v.__name__[:-5]])
            else:
                ann.append(['F', k])
        module['messages'].append([c.__name__, c.Type, c.Category, seg[fix.MessageSegments.BODY].__name__, ann])
        if c.Name != c.__name__:
            checks.append(f'message class {c.__name__} has Name {c.Name!r}')
        if seg[fix.MessageSegments.HEADER] is not mods['bodies'].Header or seg[fix.MessageSegments.TRAILER] is not mods['bodies'].Trailer:
            checks.append(f'{c.__name__}: header/trailer segment classes are not bodies.Header / bodies.Trailer')
        if fix.Message.Def.get(c.Type) is not c or fix.Message.Def.get(c.Name) is not c:
            checks.append(f'{c.__name__}: not registered in Message.Def under its type and name')
        loaded['messages'].append([c.__name__, c.Type, c.Category,
                                   tree_of(fix, seg[fix.MessageSegments.HEADER], checks),
                                   tree_of(fix, seg[fix.MessageSegments.BODY], checks),
                                   tree_of(fix, seg[fix.MessageSegments.TRAILER], checks)])
    cs = mods['app'].ClientSession
    module['session'] = cs.__mro__[1].__name__
    loaded['session'] = module['session']
    if 'pkg' in mods:
        for f in loaded['fields']:
            if not hasattr(mods['pkg'], f[0]):
                checks.append(f'package has no attribute {f[0]}')
        for m in loaded['messages']:
            if getattr(mods['pkg'], m[0], None) is not getattr(mods['messages'], m[0]):
                checks.append(f'package attribute {m[0]} is not the message class')
    res['module'] = module
    res['loaded'] = loaded
    return mods


# ------------------------------------------------------------------------------------------------ behaviour
def realise(fields_mod, v):
    """plan value -> python value ({'const': [Field, attr]} = the generated enum constant)"""
    if isinstance(v, dict) and 'const' in v:
        return getattr(getattr(fields_mod, v['const'][0]), v['const'][1])
    if isinstance(v, dict) and 'float' in v:
        return float(v['float'])
    if isinstance(v, list):
        return [{k: realise(fields_mod, x) for k, x in inst} for inst in v]
    return v


def plain(x):
    """as_collection() -> JSON-able, order-insensitive"""
    if isinstance(x, dict):
        return {str(k): plain(v) for k, v in x.items()}
    if isinstance(x, list):
        return [plain(v) for v in x]
    if isinstance(x, float):
        return {'float': repr(x)}
    return x


def run_plan(job, mods, plan, rng):
    from nasdaq_protocols import fix
    out = {'id': plan['id']}
    fm = mods['fields']
    try:
        cls = getattr(mods['messages'], plan['msg'])
        msg = cls()
        for seg in ('Header', 'Body', 'Trailer'):
            target = getattr(msg, seg)
            for name, v in plan[seg]:
                if seg == 'Body' and plan.get('via_message'):
                    setattr(msg, name, realise(fm, v))
                else:
                    setattr(target, name, realise(fm, v))
        out['build'] = 'ok'
    except BaseException as e:  # noqa
        out['build'] = err(e)
        return out
    try:
        out['collection'] = plain(msg.as_collection())
        n, b = msg.to_bytes()
        out['enc'] = {'n': n, 'hex': bytes(b).hex()}
        n2, m2 = cls.from_bytes(bytes(b))
        out['dec'] = {'n': n2, 'collection': plain(m2.as_collection()), 'eq': bool(m2 == msg),
                      'reenc': bytes(m2.to_bytes()[1]).hex(), 'cls': type(m2).__name__}
    except BaseException as e:  # noqa
        out['codec'] = err(e)
    out['validate'] = {}
    for seg in ('HEADER', 'BODY', 'TRAILER'):
        try:
            msg.validate(segments=[getattr(fix.MessageSegments, seg)])
            out['validate'][seg] = 'ok'
        except BaseException as e:  # noqa
            out['validate'][seg] = err(e)
    out['nested_validate'] = []
    for seg, path in plan.get('containers', []):
        try:
            c = getattr(msg, seg)
            for step in path:
                c = c[step] if isinstance(step, int) else getattr(c, step)
            c.validate()
            out['nested_validate'].append('ok')
        except BaseException as e:  # noqa
            out['nested_validate'].append(err(e))
    if plan.get('frame'):
        out['frame'] = asyncio.run(frame(job, mods, cls, msg, plan, rng))
    return out


async def frame(job, mods, cls, msg, plan, rng):
    out = {}
    try:
        s = mods['app'].ClientSession()
        tr = FakeTransport()
        s.connection_made(tr)
        s.sender_comp_id, s.sender_sub_id, s.target_comp_id = plan['frame']['ids']
        s.sequence = itertools.count(plan['frame']['seq'])
        out['begin'] = s.begin_string()
        s.send_msg(msg)
        data = b''.join(tr.writes)
        out['hex'] = data.hex()
        out['sent'] = plain(msg.as_collection())
        if not plan['frame'].get('readback', True):
            await asyncio.wait_for(s.close(), 2.0)
            return out
        # read back through the session's own reader, cut at random places
        cuts = sorted({rng.randrange(1, len(data)) for _ in range(rng.randint(0, 4))}) if len(data) > 1 else []
        prev = 0
        for c in cuts + [len(data)]:
            s.data_received(data[prev:c])
            prev = c
        got = await asyncio.wait_for(s.receive_msg(), 2.0)
        out['recv'] = {'cls': type(got).__name__, 'collection': plain(got.as_collection())}
        await asyncio.wait_for(s.close(), 2.0)
    except BaseException as e:  # noqa
        out['err'] = err(e)
    return out


def main_schedule(job):
    """several dictionaries in ONE process at the granularity of the generator API: `['c', i]` = parse dictionary i and construct
    its Generator, `['g', i]` = generate() of that object; steps of different dictionaries interleaved as the schedule says.
    `['p', i]` = parse only, `['c', i, s]` = construct Generator i on the Definitions object parsed for member s (one parse()
    result handed to several generators with their own app names / prefixes / output directories).
    Output: {'gens': [gen result of dictionary i (of its last generate())...]}; the packages are introspected afterwards, each
    in a process of its own (the worker again, with `pregen`)."""
    from nasdaq_protocols.fix.parser import parse, Generator
    jobs = job['jobs']
    objs, gens = {}, [None] * len(jobs)
    defs = {}              # i -> the Definitions object parse() returned for dictionary i (ONE object, however many generators use it)
    buf = io.StringIO()
    for step in job['schedule']:
        # ['p', i]: parse dictionary i (nothing else);  ['c', i]: parse dictionary i and construct its Generator;
        # ['c', i, s]: construct Generator i (its own app name / prefix / directory) on the Definitions object that was parsed for s
        # — no second parse: the object is handed to several generators;  ['g', i]: generate() of generator i
        op, i = step[0], step[1]
        src = step[2] if len(step) > 2 else None
        j = jobs[i]
        out_dir = os.path.join(j['out_root'], j['pkg'])
        try:
            with contextlib.redirect_stdout(buf):
                if op == 'p':
                    defs[i] = parse(j['xml'], j['version'])
                elif op == 'c':
                    if src is None:
                        defs[i] = parse(j['xml'], j['version'])
                        src = i
                    if src not in defs:
                        raise RuntimeError(f'dictionary {src} was not parsed (its parse() failed or never ran)')
                    objs[i] = Generator(defs[src], j['app'], out_dir, j['prefix'], generate_init_file=j['init_file'])
                elif i in objs:
                    gens[i] = {'ok': sorted(os.path.basename(f) for f in objs[i].generate())}
        except BaseException as e:  # noqa
            if not (gens[i] and 'err' in gens[i]):      # (the first failure of a member is the one reported)
                gens[i] = err(e)
            objs.pop(i, None)
    sys.stdout.write(json.dumps({'gens': gens}) + '\n')


def main():
    job = json.loads(sys.stdin.read())
    sys.path.insert(0, os.path.join(job['repo'], 'src'))
    import logging
    logging.disable(logging.CRITICAL)
    if 'schedule' in job:
        return main_schedule(job)
    res = {'gen': None, 'imp': None, 'module': None, 'loaded': None, 'checks': [], 'runs': []}
    res['gen'] = generate(job)
    if 'ok' in res['gen']:
        mods = None
        try:
            mods = introspect(job, res)
        except BaseException as e:  # noqa
            res['imp'] = err(e, where='introspection')
        if mods is not None:
            rng = random.Random(job.get('seg_seed', 0))
            for plan in job.get('plans', []):
                try:
                    res['runs'].append(run_plan(job, mods, plan, rng))
                except BaseException as e:  # noqa
                    res['runs'].append({'id': plan['id'], 'crash': err(e)})
    sys.stdout.write(json.dumps(res) + '\n')


if __name__ == '__main__':
    main()
