"""Shared by c13.py / c14.py: FIX dictionary generator, dynamic class construction, message construction,
canonical forms exchanged with the Lean model (lean/NasdaqModel/Driver/Fix.lean) and an independent reference encoder.

Abstract forms (plain python data, all choices from a seeded rng):
  entry  = ('f', tag, ty, req) | ('g', tag, req, [entry...])          ty in int float bool char string
  val    = ('i', int) | ('fl', token) | ('b', bool) | ('s', text) | ('grp', [seg...])
  seg    = [(tag, val), ...]                                           insertion (assignment) order
  mdef   = {'name', 'type', 'hdr': [entry], 'body': [entry], 'trl': [entry]}
  msg    = {'hdr': seg, 'body': seg, 'trl': seg}
"""
import itertools

from common import sx, cps

STD_FIELDS = [  # tag, name, type  — defined once per process (Field.Def is process-global)
    (8, 'BeginString', 'string'), (9, 'BodyLength', 'int'), (10, 'CheckSum', 'string'), (35, 'MsgType', 'string'),
    (34, 'MsgSeqNum', 'int'), (49, 'SenderCompID', 'string'), (50, 'SenderSubID', 'string'),
    (52, 'SendingTime', 'string'), (56, 'TargetCompID', 'string'), (57, 'TargetSubID', 'string'),
    (553, 'Username', 'string'),
]
STD_TAGS = {t for t, _, _ in STD_FIELDS}
STD_NAME = {t: n for t, n, _ in STD_FIELDS}
STD_TYPE = {t: ty for t, _, ty in STD_FIELDS}
_uid = itertools.count(1)
_std_cache = {}


def fixmod():
    from nasdaq_protocols import fix
    return fix


def ty_cls(ty):
    fix = fixmod()
    return {'int': fix.FixInt, 'float': fix.FixFloat, 'bool': fix.FixBool, 'char': fix.FixChar, 'string': fix.FixString}[ty]


def std_field(tag):
    """the process-wide class of a standard field (re-created if the library module was re-imported)"""
    fix = fixmod()
    key = (id(fix.Field), tag)
    if key not in _std_cache:
        _std_cache[key] = type(STD_NAME[tag], (fix.Field,), {}, Tag=tag, Name=STD_NAME[tag], Type=ty_cls(STD_TYPE[tag]))
    return _std_cache[key]


# ------------------------------------------------------------------ s-expressions
def entry_sx(e):
    if e[0] == 'f':
        return ['f', e[1], e[2], 1 if e[3] else 0]
    return ['g', e[1], 1 if e[2] else 0, [entry_sx(x) for x in e[3]]]


def val_sx(v):
    k = v[0]
    if k == 'i':
        return ['i', v[1]]
    if k == 'fl':
        return ['fl', cps(v[1])]
    if k == 'b':
        return ['b', 1 if v[1] else 0]
    if k == 's':
        return ['s', cps(v[1])]
    return ['grp', [seg_sx(s) for s in v[1]]]


def seg_sx(s):
    return [[t, val_sx(v)] for t, v in s]


def mdef_sx(d):
    return ['md', cps(d['name']), cps(d['type']), [entry_sx(e) for e in d['hdr']], [entry_sx(e) for e in d['body']],
            [entry_sx(e) for e in d['trl']]]


def msg_sx(m):
    return ['msg', seg_sx(m['hdr']), seg_sx(m['body']), seg_sx(m['trl'])]


def txt(l):
    return ''.join(chr(int(c)) for c in l)


def val_from_parsed(p):
    k = p[0]
    if k == 'i':
        return ('i', int(p[1]))
    if k == 'fl':
        return ('fl', txt(p[1]))
    if k == 'b':
        return ('b', p[1] == '1')
    if k == 's':
        return ('s', txt(p[1]))
    return ('grp', [seg_from_parsed(s) for s in p[1]])


def seg_from_parsed(p):
    return [(int(t), val_from_parsed(v)) for t, v in p]


def msg_from_parsed(p):
    assert p[0] == 'msg'
    return {'hdr': seg_from_parsed(p[1]), 'body': seg_from_parsed(p[2]), 'trl': seg_from_parsed(p[3])}


def entry_from_parsed(p):
    if p[0] == 'f':
        return ('f', int(p[1]), p[2], p[3] == '1')
    return ('g', int(p[1]), p[2] == '1', [entry_from_parsed(x) for x in p[3]])


def mdef_from_parsed(p):
    assert p[0] == 'md'
    return {'name': txt(p[1]), 'type': txt(p[2]), 'hdr': [entry_from_parsed(e) for e in p[3]],
            'body': [entry_from_parsed(e) for e in p[4]], 'trl': [entry_from_parsed(e) for e in p[5]]}


# ------------------------------------------------------------------ dictionary -> real classes
class Built:
    """the classes of one generated dictionary"""

    def __init__(self):
        self.field_cls = {}      # tag -> Field subclass
        self.name = {}           # tag -> name usable with setattr / dict keys (field Name; for groups the count field Name)
        self.msg_cls = {}        # mdef name -> Message subclass


def build_entries(built, entries, uid):
    fix = fixmod()
    out = []
    for e in entries:
        tag = e[1]
        if tag in STD_TAGS:
            fcls = std_field(tag)
            built.field_cls[tag] = fcls
            built.name[tag] = STD_NAME[tag]
        if e[0] == 'f':
            if tag not in built.field_cls:
                name = f'F{tag}u{uid}'
                built.field_cls[tag] = type(name, (fix.Field,), {}, Tag=tag, Name=name, Type=ty_cls(e[2]))
                built.name[tag] = name
            out.append(fix.Entry(built.field_cls[tag], e[3]))
        else:
            if tag not in built.field_cls:
                name = f'No{tag}u{uid}'
                built.field_cls[tag] = type(name, (fix.Field,), {}, Tag=tag, Name=name, Type=fix.FixInt)
                built.name[tag] = name
            sub = build_entries(built, e[3], uid)
            gcls = type(f'G{tag}u{uid}', (fix.Group,), {'Entries': sub})
            ccls = type(f'GC{tag}u{uid}', (fix.GroupContainer,), {}, CountCls=built.field_cls[tag], GroupCls=gcls)
            out.append(fix.Entry(ccls, e[2]))
    return out


def build_dictionary(mdefs):
    """create the classes for a list of message definitions (shared header/trailer objects are rebuilt per message:
    segment classes are cheap and the library does not care)"""
    fix = fixmod()
    uid = next(_uid)
    built = Built()
    for i, d in enumerate(mdefs):
        hdr = type(f'H{uid}_{i}', (fix.DataSegment,), {'Entries': build_entries(built, d['hdr'], uid)})
        body = type(f'B{uid}_{i}', (fix.DataSegment,), {'Entries': build_entries(built, d['body'], uid)})
        trl = type(f'T{uid}_{i}', (fix.DataSegment,), {'Entries': build_entries(built, d['trl'], uid)})
        built.msg_cls[d['name']] = type(d['name'], (fix.Message,), {}, Name=d['name'], Type=d['type'], Category='app',
                                        HeaderCls=hdr, BodyCls=body, TrailerCls=trl)
    return built


def reregister(built):
    """make this dictionary's classes the ones `Message.Def` resolves to again (a later dictionary — e.g. one built by a
    shrinker — may have registered the same MsgType)"""
    fix = fixmod()
    for cls in built.msg_cls.values():
        fix.Message.Def[cls.Name] = cls
        fix.Message.Def[cls.Type] = cls


def fresh_name(prefix='M'):
    return f'{prefix}{next(_uid)}x'


# ------------------------------------------------------------------ values
def py_value(v, built, use_names):
    k = v[0]
    if k == 'i':
        return v[1]
    if k == 'fl':
        return float(v[1])
    if k == 'b':
        return bool(v[1])
    if k == 's':
        return v[1]
    return [{(built.name[t] if use_names else t): py_value(x, built, use_names) for t, x in inst} for inst in v[1]]


def assign_segment(segment, seg, built, rng=None):
    """perform the assignments of `seg` on a real DataSegment, by tag or (randomly) by name"""
    for t, v in seg:
        by_name = rng is not None and rng.random() < 0.4
        val = py_value(v, built, by_name)
        if by_name and rng.random() < 0.5:
            setattr(segment, built.name[t], val)
        else:
            segment[built.name[t] if by_name else t] = val


def make_message(built, d, m, rng=None):
    cls = built.msg_cls[d['name']]
    msg = cls()
    assign_segment(msg.Header, m['hdr'], built, rng)
    assign_segment(msg.Body, m['body'], built, rng)
    assign_segment(msg.Trailer, m['trl'], built, rng)
    return msg


def find_entry(entries, tag):
    for e in entries:
        if e[1] == tag:
            return e
    return None


def coll_val(e, x):
    """a value of `as_collection()` -> abstract val, typed by the python object (and the dictionary for groups)"""
    if isinstance(x, list):
        sub = e[3] if e is not None and e[0] == 'g' else []
        return ('grp', [coll_seg(sub, inst) for inst in x])
    if isinstance(x, bool):
        return ('b', x)
    if isinstance(x, int):
        return ('i', x)
    if isinstance(x, float):
        return ('fl', repr(x))
    if isinstance(x, str):
        return ('s', x)
    raise TypeError(type(x))


def coll_seg(entries, coll):
    return [(t, coll_val(find_entry(entries, t), x)) for t, x in coll.items()]


def msg_of_collection(d, coll):
    return {'hdr': coll_seg(d['hdr'], coll['Header']), 'body': coll_seg(d['body'], coll['Body']),
            'trl': coll_seg(d['trl'], coll['Trailer'])}


# ------------------------------------------------------------------ independent reference (written from the property text)
SOH = b'\x01'


def ref_value_bytes(v):
    k = v[0]
    if k == 'i':
        return str(v[1]).encode('ascii')
    if k == 'fl':
        return v[1].encode('ascii')
    if k == 'b':
        return b'Y' if v[1] else b'N'
    return v[1].encode('ascii')


def ref_fields(entries, seg, dictionary_order):
    """list of `tag=value` byte strings: top-level segments in assignment order, group instances in dictionary order,
    a group as its count field followed by its instances"""
    out = []
    order = [(e[1], dict(seg)[e[1]]) for e in entries if e[1] in dict(seg)] if dictionary_order else seg
    for t, v in order:
        e = find_entry(entries, t)
        if v[0] == 'grp':
            out.append(str(t).encode() + b'=' + str(len(v[1])).encode())
            for inst in v[1]:
                out += ref_fields(e[3], inst, True)
        else:
            out.append(str(t).encode() + b'=' + ref_value_bytes(v))
    return out


def ref_encode(d, m):
    fields = ref_fields(d['hdr'], m['hdr'], False) + ref_fields(d['body'], m['body'], False) + ref_fields(d['trl'], m['trl'], False)
    return b''.join(f + SOH for f in fields) if fields else SOH


def canon_seg(entries, seg):
    """group instances re-ordered to dictionary order (what a decoded message looks like); top level untouched"""
    out = []
    for t, v in seg:
        e = find_entry(entries, t)
        out.append((t, canon_val(e, v)))
    return out


def canon_val(e, v):
    if v[0] != 'grp':
        return v
    insts = []
    for inst in v[1]:
        dd = dict(inst)
        insts.append([(x[1], canon_val(x, dd[x[1]])) for x in e[3] if x[1] in dd])
    return ('grp', insts)


def canon_msg(d, m):
    return {'hdr': canon_seg(d['hdr'], m['hdr']), 'body': canon_seg(d['body'], m['body']), 'trl': canon_seg(d['trl'], m['trl'])}


def groups_in_dict_order(entries, seg):
    """True when every group instance (at any depth) was assigned in dictionary order"""
    for t, v in seg:
        if v[0] == 'grp':
            e = find_entry(entries, t)
            order = [x[1] for x in e[3]]
            for inst in v[1]:
                keys = [k for k, _ in inst]
                if keys != [k for k in order if k in keys]:
                    return False
                if not groups_in_dict_order(e[3], inst):
                    return False
    return True


def msg_groups_in_dict_order(d, m):
    return all(groups_in_dict_order(d[s], m[s]) for s in ('hdr', 'body', 'trl'))


def unordered(v):
    """field values with the order of dict items forgotten (for 'has the same field values')"""
    if isinstance(v, dict):
        return {k: unordered(x) for k, x in v.items()}
    if isinstance(v, list):
        return [unordered(x) for x in v]
    return (type(v).__name__, v)


# ------------------------------------------------------------------ generators
class TagPool:
    def __init__(self, rng, exclude=()):
        self.rng = rng
        self.used = set(STD_TAGS) | set(exclude)

    def fresh(self):
        rng = self.rng
        while True:
            c = rng.random()
            if c < 0.25:
                t = rng.randint(1, 99)
            elif c < 0.7:
                t = rng.randint(100, 999)
            elif c < 0.95:
                t = rng.randint(1000, 9999)
            else:
                t = rng.randint(10000, 99999)
            if t not in self.used:
                self.used.add(t)
                return t


TYPES = ['int', 'float', 'bool', 'char', 'string']


def gen_entries(rng, pool, n, depth, allow_float=True, first_is_field=False):
    out = []
    for i in range(n):
        is_group = depth > 0 and rng.random() < (0.35 if depth >= 2 else 0.3)
        if i == 0 and first_is_field and rng.random() < 0.9:
            is_group = False
        if is_group:
            sub = gen_entries(rng, pool, rng.randint(1, 4), depth - 1, allow_float, first_is_field=True)
            out.append(('g', pool.fresh(), rng.random() < 0.3, sub))
        else:
            tys = TYPES if allow_float else [t for t in TYPES if t != 'float']
            out.append(('f', pool.fresh(), rng.choice(tys), rng.random() < 0.4))
    return out


PRINTABLE = ''.join(chr(c) for c in range(32, 127))


def gen_string(rng, ty):
    if ty == 'char':
        return rng.choice(PRINTABLE) if rng.random() < 0.9 else rng.choice(['', 'ab', '='])
    c = rng.random()
    if c < 0.12:
        return ''
    if c < 0.3:
        return rng.choice(['=', 'a=b', '35=X', '==', '10=000', '8=FIX', 'x=', '=y', '9=12', ' ', ' a ', '\t', '\x02', '\x7f'])
    n = rng.randint(1, 12) if c < 0.9 else rng.randint(13, 60)
    return ''.join(rng.choice(PRINTABLE) for _ in range(n))


def gen_float_token(rng):
    c = rng.random()
    if c < 0.15:
        x = rng.choice([0.0, -0.0, 1.0, -1.0, 0.5, 100.0, 1e16, 1e-7, 123456789.125, 1.7976931348623157e308, 5e-324, 0.1, -0.1, 1e22, 1e21])
    elif c < 0.5:
        x = round(rng.uniform(-1000, 1000), rng.randint(0, 6))
    elif c < 0.8:
        x = rng.uniform(-1e6, 1e6)
    else:
        x = rng.uniform(-1, 1) * 10 ** rng.randint(-30, 30)
    tok = repr(float(x))
    assert float(tok) == x or x != x
    return tok


def gen_int(rng):
    c = rng.random()
    if c < 0.2:
        return rng.choice([0, 1, -1, 9, 10, 99, 100, -10, 2**31, -2**31, 2**63, -2**63 - 1, 10**30])
    if c < 0.5:
        return rng.randint(-1000, 1000)
    return rng.randint(-10**12, 10**12)


def gen_prim(rng, ty):
    if ty == 'int':
        return ('i', gen_int(rng))
    if ty == 'float':
        return ('fl', gen_float_token(rng))
    if ty == 'bool':
        return ('b', rng.random() < 0.5)
    return ('s', gen_string(rng, ty))


def gen_seg(rng, entries, group=False, max_inst=3, p_optional=0.6):
    """a random well-formed segment value: required entries always, optional ones sometimes; a group instance always
    contains its first entry; assignment order shuffled"""
    chosen = []
    for i, e in enumerate(entries):
        req = e[3] if e[0] == 'f' else e[2]
        if req or (group and i == 0) or rng.random() < p_optional:
            chosen.append(e)
    if rng.random() < 0.7:
        rng.shuffle(chosen)
    seg = []
    for e in chosen:
        if e[0] == 'f':
            seg.append((e[1], gen_prim(rng, e[2])))
        else:
            c = rng.random()
            n = 0 if c < 0.15 else rng.randint(1, max_inst) if c < 0.9 else rng.randint(max_inst, max_inst + 4)
            seg.append((e[1], ('grp', [gen_seg(rng, e[3], group=True, max_inst=max(1, max_inst - 1)) for _ in range(n)])))
    return seg


def all_tags(entries):
    out = []
    for e in entries:
        out.append(e[1])
        if e[0] == 'g':
            out += all_tags(e[3])
    return out


def count_groups(seg):
    n = 0
    for _, v in seg:
        if v[0] == 'grp':
            n += 1 + sum(count_groups(i) for i in v[1])
    return n


def depth_of(entries):
    return max([0] + [1 + depth_of(e[3]) for e in entries if e[0] == 'g'])


# ------------------------------------------------------------------ fresh processes per batch
# Every generated dictionary adds classes to the library's process-global registries, and `issubclass(x, Field)` on an ABC
# walks all existing subclasses (filling their negative caches): cost and memory grow quadratically with the number of
# classes in one process.  Batches therefore run in short-lived forked workers, each with its own seeded generator.
class CaseTimeout(Exception):
    """the implementation did not finish one case in time (reported as an observation, never an infrastructure error)"""


class time_limit:
    """`with time_limit(seconds):` — SIGALRM based (main thread of a worker process); nests by restoring the old timer"""
    def __init__(self, seconds):
        self.seconds = seconds

    def __enter__(self):
        import signal

        def on_alarm(_sig, _frm):
            raise CaseTimeout(f'no result after {self.seconds} s')
        try:
            self.old = signal.signal(signal.SIGALRM, on_alarm)
            signal.setitimer(signal.ITIMER_REAL, self.seconds)
            self.armed = True
        except ValueError:          # not in the main thread
            self.armed = False
        return self

    def __exit__(self, *exc):
        import signal
        if self.armed:
            signal.setitimer(signal.ITIMER_REAL, 0)
            signal.signal(signal.SIGALRM, self.old)
        return False


def limit_memory(gigabytes=3):
    """a decoder that loops on `count` can allocate without bound: turn that into MemoryError instead of an OOM kill.
    Only the soft limit is lowered, so that it can be lifted again around calls of the Lean driver (its runtime reserves
    a lot of address space)"""
    import resource
    lim = int(gigabytes * 2**30)
    try:
        _soft, hard = resource.getrlimit(resource.RLIMIT_AS)
        resource.setrlimit(resource.RLIMIT_AS, (lim, hard))
    except (ValueError, OSError):
        pass


class GuardedDriver:
    """the model driver with the address-space limit lifted for the duration of a request"""
    def __init__(self, driver):
        self.driver = driver
        self.available = driver.available

    def ask(self, lines):
        import resource
        soft, hard = resource.getrlimit(resource.RLIMIT_AS)
        try:
            resource.setrlimit(resource.RLIMIT_AS, (hard, hard))
            return self.driver.ask(lines)
        finally:
            resource.setrlimit(resource.RLIMIT_AS, (soft, hard))


def _chunk_worker(args):
    import importlib
    import random
    import common
    prop, tier, seed, modname, chunk_id, payload = args
    limit_memory()
    ctx = common.Ctx(prop, tier, seed)
    ctx.rng = random.Random(f'{prop}-{seed}-chunk{chunk_id}')
    mod = importlib.import_module(modname)
    ctx.driver = GuardedDriver(common.Driver(getattr(mod, 'DRIVER', f'drv_{prop}')))
    try:
        mod.run_chunk(ctx, payload)
        err = None
    except Exception:  # noqa
        import traceback
        err = traceback.format_exc()[-3000:]
    return {'chunk': chunk_id, 'violations': ctx.violations, 'known_hits': ctx.known_hits, 'disagreements': ctx.disagreements,
            'evaluations': ctx.cov['evaluations'], 'histogram': ctx.cov['histogram'], 'samples': ctx.cov['samples'],
            'distinct': list(ctx._distinct), 'notes': ctx.notes, 'error': err}


def run_chunks(ctx, modname, payloads, processes=8):
    """run `modname.run_chunk(worker_ctx, payload)` for every payload in fresh forked processes and merge into `ctx`"""
    import multiprocessing as mp
    if not payloads:
        return
    args = [(ctx.prop, ctx.tier, ctx.seed, modname, i, p) for i, p in enumerate(payloads)]
    with mp.get_context('fork').Pool(processes=min(processes, len(args)), maxtasksperchild=1) as pool:
        results = pool.map(_chunk_worker, args, chunksize=1)
    for r in sorted(results, key=lambda x: x['chunk']):
        if r['error']:
            raise RuntimeError('worker failed:\n' + r['error'])
        for v in r['violations']:
            if len(ctx.violations) < 20:
                ctx.violations.append(tuple(v))
        for k in r['known_hits']:
            if k[0] not in [x[0] for x in ctx.known_hits]:
                ctx.known_hits.append(tuple(k))
        for dgr in r['disagreements']:
            if len(ctx.disagreements) < 20:
                ctx.disagreements.append(tuple(dgr))
        ctx.cov['evaluations'] += r['evaluations']
        for k, n in r['histogram'].items():
            ctx.count(k, n)
        for smp in r['samples']:
            if len(ctx.cov['samples']) < 6:
                ctx.cov['samples'].append(smp)
        ctx._distinct.update(r['distinct'])
        for n in r['notes']:
            if n not in ctx.notes:
                ctx.notes.append(n)
    ctx.cov['distinct_nontrivial'] = len(ctx._distinct)


# ------------------------------------------------------------------ in-place edits of an already encoded message
def _grp_sites(entries, seg, path):
    """every group instance reachable in `seg`: (path of (tag, index) steps, sub entries, instance)"""
    out = []
    for t, v in seg:
        if v[0] != 'grp':
            continue
        e = find_entry(entries, t)
        if e is None:
            continue
        for i, inst in enumerate(v[1]):
            p = path + [(t, i)]
            out.append((p, e[3], inst))
            out += _grp_sites(e[3], inst, p)
    return out


def edit_in_place(rng, built, d, m, msg):
    """Change one primitive field of one (possibly nested) group instance of the REAL message object `msg` in place —
    `msg.Body[tag][i]…[tag2] = value`, no assignment on any enclosing object — and return the abstract message that `msg` now
    holds (None when the message has no group instance with a primitive field).  The object has typically been encoded before:
    anything remembered from that encoding must not survive the edit."""
    import copy
    segs = [('hdr', 'Header', d['hdr']), ('body', 'Body', d['body']), ('trl', 'Trailer', d['trl'])]
    sites = []
    for key, attr, entries in segs:
        for p, sub, inst in _grp_sites(entries, m[key], []):
            prim = [(j, t, v) for j, (t, v) in enumerate(inst) if v[0] != 'grp' and find_entry(sub, t) is not None]
            if prim:
                sites.append((key, attr, p, sub, prim))
    if not sites:
        return None
    key, attr, path, sub, prim = rng.choice(sites)
    j, t, old = rng.choice(prim)
    e = find_entry(sub, t)
    new = gen_prim(rng, e[2])
    for _ in range(5):
        if new != old:
            break
        new = gen_prim(rng, e[2])
    m2 = copy.deepcopy(m)
    obj = getattr(msg, attr)
    seg = m2[key]
    for (gt, i) in path:
        obj = obj[gt][i]
        k = next(k for k, (tt, _) in enumerate(seg) if tt == gt)
        seg = seg[k][1][1][i]
    obj[t] = py_value(new, built, False)
    seg[j] = (t, new)
    return m2


def apply_difference(built, d, before, after, msg):
    """replay of `edit_in_place`: find the one primitive that differs between two abstract messages and assign it in place on `msg`"""
    def walk(entries, sb, sa, obj):
        for (t, vb), (t2, va) in zip(sb, sa):
            if vb == va:
                continue
            if vb[0] == 'grp':
                e = find_entry(entries, t)
                for i, (ib, ia) in enumerate(zip(vb[1], va[1])):
                    if ib != ia:
                        return walk(e[3], ib, ia, obj[t][i])
            obj[t] = py_value(va, built, False)
            return True
        return False
    for key, attr, entries in [('hdr', 'Header', d['hdr']), ('body', 'Body', d['body']), ('trl', 'Trailer', d['trl'])]:
        if walk(entries, before[key], after[key], getattr(msg, attr)):
            return True
    return False
