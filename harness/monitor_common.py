"""Shared by c08.py / c09.py: run heartbeat schedules on the real sessions (virtual time) and on Model/Monitor.lean.

A *case* is a dict
    {'role': 'soupClient'|'soupServer'|'fix', 'ci': <client interval>, 'si': <server interval>,
     'events': [[t, ev], ...], 'horizon': H}
with all times in grid units after login (one unit = UNIT virtual seconds), `ev` one of
    'send' | 'send:<variant>' | 'sendfail' | 'sendfail:<variant>' | 'sendhb' | 'recv:hb' | 'recv:msg' | 'recv:frag' | 'close' | 'block:<d>'.
`send:<variant>` names which application-send entry point of the session API is used (SEND_VARIANTS below; plain `send` is the
first variant of the role).  For the model every one of them is the same event: an application send = any non-heartbeat write.
`sendfail:<variant>` is an application send that the library *rejects*: the call raises before anything is written (FAIL_VARIANTS:
a FIX message without its mandatory body fields, a value that cannot be encoded, a soup payload longer than a packet, …).  For
the model it is `sendfailed`: no write, no ping.
`block:<d>` (C09): the callback that performs the script — i.e. a handler running on the event loop — *blocks* for d grid units:
the virtual clock is moved on synchronously (`VirtualLoop.hold`), no loop iteration happens meanwhile, so no timer fires and
nothing is handed to the session.  `recv:*` events stamped inside (t, t+d] are bytes that reached the socket during the hold-up:
they are handed to `data_received` when the block ends, in script order, *before* the late timers run — the order of
`BaseEventLoop._run_once` (selector events first, then due timers).  Other events stamped inside a hold-up make no sense (the
application is the one that is blocked) and are removed by `sanitize`.  Cases with blocks go to the model as `hbl.run`
(Model/MonitorLate.lean: `hold`, `resume`).  Blocks start on odd instants and have odd lengths: they end on even instants, so
late ticks and everything scheduled from them stay on even instants and never tie with an external event.
Generated cases keep monitor ticks on even instants (even intervals) and external events on odd instants, so that no
external event ever ties with a tick (the model resolves such a tie as "tick first"; the real loop by float noise).

Transport flow control and application latency (all optional; a case without them runs exactly as before):
  case['hw'] (and ['lw'])   the transport has a write buffer with these high / low-water marks in bytes (vloop.FakeTransport
                            `enable_write_flow`): what the peer does not read is buffered, and the transport calls the session's
                            `pause_writing()` from inside `write()` once the buffer is above `hw`, `resume_writing()` from a loop
                            callback once the peer has read it down to `lw` — exactly what asyncio's socket transports do.
  'wstop' | 'wstop:<k>'     the peer stops reading (the kernel still takes k bytes, default 0)
  'wgo'   | 'wgo:<n>'       the peer reads everything and goes on reading | reads n buffered bytes only
      A write the transport accepts into a full buffer is still a write: C08's "outbound transmission" is the `transport.write`
      call — the property is about the session *emitting*, not about the peer's reading.  For the model the callbacks the transport
      made are events of their own (`wpause` / `wresume`, Model/MonitorFlow.lean, op `hbf.run`): they are taken from the run
      (obs['flow']) and put into the history at the instants they happened.
  'recv:msg@<d>'            a message whose application callback (on_msg_coro / on_unsequenced) AWAITS `asyncio.sleep(d units)` before it
                            returns (d a decimal number carried in the payload; generated as x.5 so that a callback never ends at a tick)
  'recv:burst:<n>@<d>'      n such messages in one segment (one `data_received` call; for the model one `recv msg`)
  case['loginlat']          soup server: `on_login` awaits that many units before it accepts (time 0 stays the LoginAccepted write)
      All inbound bytes go through `FakeTransport.feed`: they wait while the session has paused reading (`transport.pause_reading()`)
      and are handed over when it resumes.  The stamp of a `recv:*` event is the instant the peer *wrote* the bytes (they reached
      the socket) — that is what C09's "the peer delivers a byte" means, as for hold-ups.

An *observation* (both sides, canonical) is
    {'closed': None | [t, 'mon'|'app'], 'writes': [[t, 'hb'|'app', 'live'|'dead'], ...]}      (chronological)
Heartbeats written at the very instant the remote monitor closes the session are dropped from both sides before they
are compared: whether the local monitor's timer runs before or after the remote one's at the same instant is decided by
the order of two equal floats in the loop's timer heap, and neither property speaks about that instant.
"""
import asyncio
import os
import sys

import common
from common import sx
from vloop import VirtualLoop, FakeTransport, turns, until

UNIT = 0.00125          # virtual seconds per grid unit: interval 8 units = 0.01 s
ROLES = ('soupClient', 'soupServer', 'fix')
SETTLE = 0.0005         # virtual seconds allowed for the login exchange (reader poll is 0.0001 s)

# every way the session API offers to send an application (= non-heartbeat) message, per role
SEND_VARIANTS = {
    'soupClient': ['unseq', 'debug', 'msg-unseq', 'msg-debug', 'msg-login'],
    'soupServer': ['seq', 'seq-obj', 'debug', 'msg-seq', 'msg-debug'],
    'fix': ['nope', 'login', 'nope-user'],
}

# application sends that the library rejects before writing anything (raise inside send_msg / the send_* helper), per role
FAIL_VARIANTS = {
    'soupClient': ['debug-nonascii', 'data-toolong', 'data-str'],
    'soupServer': ['debug-nonascii', 'data-toolong', 'data-str'],
    'fix': ['validate', 'encode'],
}

KNOWN_LOCAL = []        # no pending finding: the server call-site defect (C08-server-heartbeat-args) is fixed in /repo 757e1aa;
#                         its failing histories live in corpus/C08, corpus/C09 and must pass


def report(ctx, what, replay):
    """ctx.violation, except for the narrow signatures this module knows while the fix is pending"""
    for k in KNOWN_LOCAL:
        if k['property'] == ctx.prop and common.matches_known(k, replay):
            if k['id'] not in [x[0] for x in ctx.known_hits]:
                ctx.known_hits.append((k['id'], k['what']))
            return
    ctx.violation(what, replay)


def own_interval(case):
    return case['si'] if case['role'] == 'soupServer' else case['ci']


def peer_interval(case):
    return case['ci'] if case['role'] == 'soupServer' else case['si']


# ------------------------------------------------------------------ implementation side
class LogTransport(FakeTransport):
    """one ordered log of writes and close() calls, each write tagged with session.is_closed() at that moment"""

    def __init__(self):
        super().__init__()
        self.log = []
        self.session = None

    def write(self, data):
        super().write(data)
        closed = bool(self.session.is_closed()) if self.session is not None else False
        self.log.append(('w', self._now(), bytes(data), closed))

    def close(self):
        super().close()
        self.log.append(('c', self._now()))


_cache = {}


def _libs():
    """lazy imports (run.py selects the repository first)"""
    if 'soup' not in _cache:
        from nasdaq_protocols import soup
        from nasdaq_protocols.soup import session as soup_session

        class Server(soup_session.SoupServerSession):
            login_latency = 0       # grid units `on_login` awaits (set by Rig.login before the session is built)

            async def on_login(self, msg):
                if Server.login_latency:
                    await asyncio.sleep(Server.login_latency * UNIT)
                return soup.LoginAccepted('sess', 1)

            async def on_unsequenced(self, msg):
                await app_latency(msg.data)

        _cache['soup'] = soup
        _cache['soup_session'] = soup_session
        _cache['Server'] = Server
    return _cache


def _fix_libs():
    if 'fixm' not in _cache:
        tests = os.path.join(common.REPO, 'tests')
        if tests not in sys.path:
            sys.path.append(tests)
        from nasdaq_protocols import fix
        from nasdaq_protocols.fix import session as fix_session
        import fix_messages as fixm          # the suite's dictionary: Login / Heartbeat / Nope
        _cache['fix'] = fix
        _cache['fix_session'] = fix_session
        _cache['fixm'] = fixm
    return _cache


def _fix_login_msg(sender, target):
    L = _fix_libs()
    fix, fixm = L['fix'], L['fixm']
    return fixm.Login({
        fix.MessageSegments.HEADER: {'SenderCompID': sender, 'TargetCompID': target, 'MsgSeqNum': 1},
        fix.MessageSegments.BODY: {'Username': 'u'},
    })


def latency_of(payload):
    """callback latency (grid units) a message asks for: its payload is a decimal number (`recv:msg@<d>`), else 0"""
    try:
        d = float(bytes(payload) if not isinstance(payload, str) else payload)
    except (TypeError, ValueError):
        return 0.0
    return d if 0 < d < 1e6 else 0.0


async def app_latency(payload):
    """the application's message callback: awaits (does not block) for as long as the message asks"""
    d = latency_of(payload)
    if d:
        await asyncio.sleep(d * UNIT)


class Rig:
    """a logged-in session of one kind plus the actions a script can perform on it"""

    def __init__(self, role, ci, si, hw=None, lw=None, loginlat=0):
        self.role, self.ci, self.si = role, ci, si
        self.loginlat = loginlat
        self.tr = LogTransport()
        if hw is not None:
            self.tr.enable_write_flow(high=hw, low=lw)
        self.closed_cb = []
        self.pending = b''      # rest of a frame whose first bytes were delivered as fragments
        self.t0 = None
        self.n0 = 0
        self.s = None
        self.peer = None
        self.peer_task = None
        self.rejected = []      # exception names of the `sendfail` events
        self.not_rejected = []  # `sendfail` variants the library did not reject

    async def _on_msg(self, m):
        try:
            payload = getattr(m, 'Username', None) if self.role == 'fix' else getattr(m, 'data', None)
        except Exception:       # noqa — a message without that field
            payload = None
        await app_latency(payload)

    async def _on_close(self):
        self.closed_cb.append(asyncio.get_running_loop().time())

    async def login(self):
        loop = asyncio.get_running_loop()
        kw = dict(client_heartbeat_interval=self.ci * UNIT, server_heartbeat_interval=self.si * UNIT)
        if self.role == 'soupClient':
            L = _libs()
            soup = L['soup']
            self.s = L['soup_session'].SoupClientSession(on_msg_coro=self._on_msg, on_close_coro=self._on_close, **kw)
            self.tr.session = self.tr.protocol = self.s
            self.s.connection_made(self.tr)
            task = asyncio.create_task(self.s.login(soup.LoginRequest('u', 'p', '', '1')))
            await turns(3)
            self.s.data_received(soup.LoginAccepted('sess', 1).to_bytes()[1])
            await asyncio.wait_for(task, SETTLE * 20)
            self.t0 = loop.time()
        elif self.role == 'soupServer':
            L = _libs()
            soup = L['soup']
            L['Server'].login_latency = self.loginlat
            self.s = L['Server'](**kw)
            self.tr.session = self.tr.protocol = self.s
            self.s.connection_made(self.tr)
            self.s.data_received(soup.LoginRequest('u', 'p', '', '1').to_bytes()[1])
            for _ in range(40 + int(self.loginlat * UNIT / (SETTLE / 10)) + 1):
                if self.tr.log:
                    break
                await asyncio.sleep(SETTLE / 10)
            if not self.tr.log:
                raise RuntimeError('server session never answered the login request')
            self.t0 = self.tr.log[-1][1]       # start_heartbeats follows the LoginAccepted write synchronously
            await turns(3)
        elif self.role == 'fix':
            L = _fix_libs()
            fs = L['fix_session']
            # a second session object is only used as an encoder for the inbound frames
            self.peer = fs.Fix44Session()
            ptr = FakeTransport()
            self.peer.connection_made(ptr)
            self.peer_task = asyncio.create_task(self.peer.login(_fix_login_msg('SERVER', 'CLIENT')))
            await turns(3)
            self.peer_tr = ptr
            logon_bytes = ptr.writes[-1][1]
            self.s = fs.Fix44Session(on_msg_coro=self._on_msg, on_close_coro=self._on_close, **kw)
            self.tr.session = self.tr.protocol = self.s
            self.s.connection_made(self.tr)
            task = asyncio.create_task(self.s.login(_fix_login_msg('CLIENT', 'SERVER')))
            await turns(3)
            self.s.data_received(logon_bytes)
            await asyncio.wait_for(task, SETTLE * 20)
            self.t0 = loop.time()
        else:
            raise ValueError(self.role)
        self.n0 = len(self.tr.log)

    # ---- frames
    def _frame(self, kind, lat=None):
        """one inbound frame: a heartbeat, or a message (whose payload asks the callback for latency `lat`, a decimal string)"""
        if self.role == 'fix':
            fixm = _fix_libs()['fixm']
            m = fixm.Heartbeat() if kind == 'hb' else fixm.Nope()
            if lat is not None and kind != 'hb':
                m.Username = lat
            self.peer.send_msg(m)
            return self.peer_tr.writes[-1][1]
        soup = _libs()['soup']
        payload = b'x' if lat is None else lat.encode()
        if self.role == 'soupClient':      # the peer is a server
            return (soup.ServerHeartbeat() if kind == 'hb' else soup.SequencedData(payload)).to_bytes()[1]
        return (soup.ClientHeartbeat() if kind == 'hb' else soup.UnSequencedData(payload)).to_bytes()[1]

    def inbound(self, data):
        """the peer writes `data`: it reaches `data_received` now, or waits while the session has paused reading"""
        self.tr.feed(data)

    def app_send(self, variant):
        """one application send through the named entry point of the session API"""
        s = self.s
        if self.role == 'fix':
            fixm = _fix_libs()['fixm']
            if variant == 'nope':
                s.send_msg(fixm.Nope())
            elif variant == 'login':
                s.send_msg(_fix_login_msg('CLIENT', 'SERVER'))
            elif variant == 'nope-user':
                m = fixm.Nope()
                m.Username = 'someone'
                s.send_msg(m)
            else:
                raise ValueError(variant)
            return
        soup = _libs()['soup']
        if variant == 'unseq':
            s.send_unseq_data(b'x')
        elif variant == 'seq':
            s.send_seq_msg(b'x')
        elif variant == 'seq-obj':
            s.send_seq_msg(soup.SequencedData(b'yz'))
        elif variant == 'debug':
            s.send_debug('dbg')
        elif variant == 'msg-unseq':
            s.send_msg(soup.UnSequencedData(b''))
        elif variant == 'msg-seq':
            s.send_msg(soup.SequencedData(b'q'))
        elif variant == 'msg-debug':
            s.send_msg(soup.Debug(''))
        elif variant == 'msg-login':
            s.send_msg(soup.LoginRequest('u', 'p', '', '1'))
        else:
            raise ValueError(variant)

    def app_send_fail(self, variant):
        """one application send that the library must reject (it raises before the write)"""
        s = self.s
        if self.role == 'fix':
            fixm = _fix_libs()['fixm']
            if variant == 'validate':          # mandatory body fields (Field_1_Int, Field_2_Str) missing: msg.validate raises
                s.send_msg(fixm.Message_1())
            elif variant == 'encode':          # not ASCII: _prepare_complete_msg raises
                m = fixm.Nope()
                m.Username = 'h\xe9'
                s.send_msg(m)
            else:
                raise ValueError(variant)
            return
        data = (lambda d: s.send_unseq_data(d)) if self.role == 'soupClient' else (lambda d: s.send_seq_msg(d))
        if variant == 'debug-nonascii':
            s.send_debug('h\xe9')
        elif variant == 'data-toolong':        # longer than the 16-bit packet length
            data(b'x' * 40000)
        elif variant == 'data-str':
            data('abc')
        else:
            raise ValueError(variant)

    async def do(self, ev):
        s = self.s
        if ev == 'sendfail' or ev.startswith('sendfail:'):
            v = ev[9:] or FAIL_VARIANTS[self.role][0]
            try:
                self.app_send_fail(v)
                self.not_rejected.append(v)
            except Exception as e:      # noqa — the rejection (whatever the library raises)
                self.rejected.append(common.err_name(e))
        elif ev == 'send' or ev.startswith('send:'):
            self.app_send(ev[5:] or SEND_VARIANTS[self.role][0])
        elif ev == 'sendhb':
            if self.role == 'fix':
                s.send_msg(_fix_libs()['fixm'].Heartbeat())
            elif self.role == 'soupClient':
                s.send_msg(_libs()['soup'].ClientHeartbeat())
            else:
                s.send_msg(_libs()['soup'].ServerHeartbeat())
        elif ev in ('recv:hb', 'recv:msg'):
            data = self.pending + self._frame(ev[5:])
            self.pending = b''
            self.inbound(data)
        elif ev.startswith('recv:msg@'):
            data = self.pending + self._frame('msg', ev[9:])
            self.pending = b''
            self.inbound(data)
        elif ev.startswith('recv:burst:'):
            n, lat = ev[11:].split('@')
            one = None if self.role == 'fix' else self._frame('msg', lat)       # FIX frames differ (sequence number): encode each
            data = self.pending + b''.join(one if one is not None else self._frame('msg', lat) for _ in range(int(n)))
            self.pending = b''
            self.inbound(data)
        elif ev == 'recv:frag':
            if not self.pending:
                self.pending = self._frame('hb')
            self.inbound(self.pending[:1])
            self.pending = self.pending[1:]
        elif ev == 'wstop' or ev.startswith('wstop:'):
            self.tr.peer_stops_reading(int(ev[6:] or 0))
        elif ev == 'wgo' or ev.startswith('wgo:'):
            self.tr.peer_reads(int(ev[4:]) if ev[4:] else None)
        elif ev == 'close':
            was = s.is_closed()
            await s.close()
            if not was:
                self.app_closed = True
        else:
            raise ValueError(ev)

    app_closed = False

    def is_hb(self, b):
        if self.role == 'fix':
            return b'\x0135=0\x01' in b
        return b[2:3] in (b'R', b'H')

    async def finish(self):
        if self.peer_task is not None:
            self.peer_task.cancel()
        try:
            if self.s is not None and not self.s.is_closed():
                await self.s.close()
            if self.peer is not None and not self.peer.is_closed():
                await self.peer.close()
        except BaseException:      # noqa — only tidying up
            pass


def grid(t, t0):
    """virtual time -> grid units after login; None if it is not on the grid (never expected)"""
    x = (t - t0) / UNIT
    r = round(x)
    return r if abs(x - r) < 0.02 else None


async def _impl_case(case):
    rig = Rig(case['role'], case['ci'], case['si'], hw=case.get('hw'), lw=case.get('lw'), loginlat=case.get('loginlat', 0))
    try:
        await rig.login()
        loop = asyncio.get_running_loop()
        for t, ev in case['events']:
            await until(rig.t0 + t * UNIT)          # returns at once (no loop iteration) for an event stamped inside a hold-up
            if ev.startswith('block:'):
                loop.hold(rig.t0 + (t + int(ev[6:])) * UNIT)
            else:
                await rig.do(ev)
        await until(rig.t0 + case['horizon'] * UNIT)
        await turns(4)
        obs = {'closed': None, 'writes': []}
        offgrid = False
        for e in rig.tr.log[rig.n0:]:
            g = grid(e[1], rig.t0)
            if g is None:
                offgrid = True
                g = (e[1] - rig.t0) / UNIT
            if e[0] == 'w':
                obs['writes'].append([g, 'hb' if rig.is_hb(e[2]) else 'app', 'dead' if e[3] else 'live'])
            elif obs['closed'] is None:
                obs['closed'] = [g, 'app' if rig.app_closed and any(t == g and ev == 'close' for t, ev in case['events']) else 'mon']
        if obs['closed'] is None and rig.s.is_closed():
            obs['closed'] = ['?', 'no-transport-close']
        if offgrid:
            obs['offgrid'] = True
        if rig.not_rejected:
            obs['not_rejected'] = rig.not_rejected[:5]
        if case.get('hw') is not None:
            # the flow-control callbacks the transport made to the session, in grid units (the model takes them as events)
            obs['flow'] = [[grid(t, rig.t0) if grid(t, rig.t0) is not None else (t - rig.t0) / UNIT,
                            {'pause_writing': 'wpause', 'resume_writing': 'wresume'}[name]]
                           for name, t in rig.tr.flow_log if name in ('pause_writing', 'resume_writing') and t >= rig.t0]
        if rig.tr.pause_log:
            obs['read_paused'] = [[kind, round((t - rig.t0) / UNIT, 2)] for kind, t in rig.tr.pause_log][:6]
        return obs
    finally:
        await rig.finish()


def impl_run(case):
    """observation of the real session, or {'error': name}"""
    loop = VirtualLoop()
    try:
        obs = loop.run(_impl_case(case))
        if loop.loop_exceptions:
            obs['loop_exceptions'] = [type(c.get('exception')).__name__ for c in loop.loop_exceptions][:3]
        return obs
    except Exception as e:      # noqa — a (possibly modified) library may raise anything
        return {'error': common.err_name(e) + ':' + str(e)[:80]}
    finally:
        try:
            loop.shutdown()
        except Exception:       # noqa
            pass


def _impl_chunk(cases):
    return [impl_run(c) for c in cases]


def impl_run_many(cases, jobs=None):
    """impl_run over a list of cases, in forked worker processes (every case builds its own loop, transport and sessions; nothing is
    shared between cases), results in order.  Falls back to the calling process if the pool cannot be used."""
    jobs = jobs or int(os.environ.get('VERIF_JOBS', '0') or 0) or max(1, min(8, (os.cpu_count() or 2) // 2))
    if jobs <= 1 or len(cases) < 64:
        return [impl_run(c) for c in cases]
    try:
        import multiprocessing
        _libs()                     # import the library once, before the fork
        step = max(8, min(64, len(cases) // (jobs * 4)))
        chunks = [cases[i:i + step] for i in range(0, len(cases), step)]
        with multiprocessing.get_context('fork').Pool(jobs) as pool:
            out = pool.map(_impl_chunk, chunks, chunksize=1)
        return [o for ch in out for o in ch]
    except Exception:       # noqa — no fork / no semaphores in this environment
        return [impl_run(c) for c in cases]


# ------------------------------------------------------------------ model side
def blocks_of(case):
    """[(start, end)] of the hold-ups of a case"""
    return [(t, t + int(ev[6:])) for t, ev in case['events'] if ev.startswith('block:')]


def sanitize(case):
    """drop what cannot happen: a block that starts inside another one, application actions stamped inside a hold-up"""
    out, end = [], -1
    for t, ev in case['events']:
        if ev.startswith('block:'):
            if t <= end or int(ev[6:]) <= 0:
                continue
            end = t + int(ev[6:])
        elif t <= end and not ev.startswith('recv'):
            continue
        out.append([t, ev])
    return dict(case, events=out, horizon=max(case['horizon'], end + 1))


def is_flow_ev(ev):
    return ev == 'wstop' or ev.startswith('wstop:') or ev == 'wgo' or ev.startswith('wgo:')


def model_token(ev):
    if ev == 'sendfail' or ev.startswith('sendfail:'):
        return 'sendfailed'
    if ev == 'send' or ev.startswith('send:'):
        return 'send'
    if ev in ('wpause', 'wresume'):
        return ev
    if ev.startswith('recv:msg@') or ev.startswith('recv:burst:'):
        return ['recv', 'msg']           # one `data_received` call; how long the application's callback takes is not the session's business
    return {'sendhb': 'sendhb', 'close': 'close'}.get(ev) or ['recv', ev[5:]]


def model_request(case, flow=None):
    """the request line for the model.  `flow`: the flow-control callbacks the transport made in the implementation run
    ([[t, 'wpause'|'wresume'], ...], obs['flow']) — a case with a write buffer ('hw') goes to `hbf.run` (Model/MonitorFlow.lean) with
    those callbacks as events, each after the script events of its instant (`pause_writing()` is called from inside a write)."""
    if case.get('hw') is not None:
        ev = [[t, e] for t, e in case['events'] if not is_flow_ev(e)]
        for t, e in (flow or []):
            if isinstance(t, int):
                k = len([x for x in ev if x[0] <= t])
                ev.insert(k, [t, e])
        out, now = [], 0
        for t, e in ev:
            if t > now:
                out.append(['adv', t - now])
                now = t
            out.append(model_token(e))
        if case['horizon'] > now:
            out.append(['adv', case['horizon'] - now])
        return f"hbf.run {case['role']} {case['ci']} {case['si']} {sx(out)}"
    late = any(ev.startswith('block:') for _, ev in case['events'])
    out, now, end = [], 0, None          # end: instant at which the current hold-up ends
    def pass_to(t):
        nonlocal now, end
        if end is not None and t > end:
            if end > now:
                out.append(['hold', end - now])
            out.append('resume')
            now, end = max(now, end), None
        if t > now:
            out.append(['hold' if end is not None else 'adv', t - now])
            now = t
    for t, ev in case['events']:
        if is_flow_ev(ev):
            continue                     # (no write buffer configured: the transport makes no callback)
        pass_to(t)
        if ev.startswith('block:'):
            end = t + int(ev[6:])
        else:
            out.append(model_token(ev))
    pass_to(max(case['horizon'], now if end is None else end + 1))
    return f"{'hbl' if late else 'hb'}.run {case['role']} {case['ci']} {case['si']} {sx(out)}"


def parse_model(line):
    if not line or not line.startswith('ok '):
        return {'error': line}
    head, w = line.split(' writes=', 1)
    f = dict(x.split('=') for x in head.split()[1:])
    closed = None
    if f['closed'] != 'none':
        t, who = f['closed'].split(':')
        closed = [int(t), who]
    writes = [[int(x[0]), x[1], x[2]] for x in common.parse_sx(w)[0]]
    return {'closed': closed, 'writes': writes}


def parse_request(req):
    """`hb.run role ci si (events)` (as printed by `witness Cxx`) -> case"""
    t = common.parse_sx(req)
    assert t[0] == 'hb.run', req
    events, now = [], 0
    for e in t[4]:
        if isinstance(e, list) and e[0] == 'adv':
            now += int(e[1])
        elif isinstance(e, list):
            events.append([now, 'recv:' + e[1]])
        else:
            events.append([now, 'sendfail' if e == 'sendfailed' else e])
    return {'role': t[1], 'ci': int(t[2]), 'si': int(t[3]), 'events': events, 'horizon': now}


def canon(obs):
    """drop heartbeats written at the instant the remote monitor closed the session (see module docstring)"""
    if 'error' in obs:
        return obs
    c = obs['closed']
    w = obs['writes']
    if c and c[1] == 'mon':
        w = [x for x in w if not (x[0] == c[0] and x[1] == 'hb')]
    out = {'closed': c, 'writes': w}
    for k in ('offgrid', 'loop_exceptions'):
        if k in obs:
            out[k] = obs[k]
    return out


def life(obs, case):
    c = obs['closed']
    return c[0] if c and isinstance(c[0], int) else case['horizon']


# ------------------------------------------------------------------ single monitors (tolerance / stop flag)
async def _impl_monitor(interval, tol, stop, events, horizon):
    from nasdaq_protocols.common import HeartbeatMonitor
    loop = asyncio.get_running_loop()
    trips = []

    async def tripped():
        trips.append(loop.time())

    t0 = loop.time()
    m = HeartbeatMonitor('verif', interval * UNIT, tripped, stop_when_no_activity=stop, tolerate_missed_heartbeats=tol)
    try:
        for t, ev in events:
            await until(t0 + t * UNIT)
            if ev.startswith('block:'):       # the event loop is held up (see the module docstring); pings stamped inside are made at its end
                loop.hold(t0 + (t + int(ev[6:])) * UNIT)
            else:
                m.ping()
        await until(t0 + horizon * UNIT)
        await turns(3)
        return {'trips': [grid(x, t0) for x in trips], 'running': bool(m.is_running())}
    finally:
        await m.stop()


def impl_monitor(mcase):
    loop = VirtualLoop()
    try:
        return loop.run(_impl_monitor(mcase['interval'], mcase['tol'], mcase['stop'], mcase['events'], mcase['horizon']))
    except Exception as e:      # noqa
        return {'error': common.err_name(e) + ':' + str(e)[:80]}
    finally:
        try:
            loop.shutdown()
        except Exception:       # noqa
            pass


def monitor_request(mcase):
    """`mon.run` request; None for a case with hold-ups (bare monitors under a blocked loop: property oracle only)"""
    if blocks_of(mcase):
        return None
    out, now = [], 0
    for t, _ev in mcase['events']:
        if t > now:
            out.append(['adv', t - now])
            now = t
        out.append('ping')
    if mcase['horizon'] > now:
        out.append(['adv', mcase['horizon'] - now])
    return f"mon.run {mcase['interval']} {mcase['tol']} {'true' if mcase['stop'] else 'false'} {sx(out)}"


def parse_monitor(line):
    if not line or not line.startswith('ok '):
        return {'error': line}
    head, tr = line.split(' trips=', 1)
    f = dict(x.split('=') for x in head.split()[1:])
    return {'trips': [int(x) for x in common.parse_sx(tr)[0]], 'running': f['running'] == 'true'}


# ------------------------------------------------------------------ generators shared by both properties
def odd_points(lo, hi):
    return [t for t in range(lo, hi) if t % 2 == 1]


def feed(period, horizon, kind='recv:hb', start=1):
    """peer bytes every `period` units (odd instants)"""
    return [[t, kind] for t in range(start, horizon, period)]


def merge(*lists):
    out = []
    for li in lists:
        out += [list(e) for e in li]
    out.sort(key=lambda e: e[0])
    return out


def vary_sends(rng, case):
    """choose the entry point of every application send at random (the model does not distinguish them)"""
    for e in case['events']:
        if e[1] == 'send':
            e[1] = 'send:' + rng.choice(SEND_VARIANTS[case['role']])
        elif e[1] == 'sendfail':
            e[1] = 'sendfail:' + rng.choice(FAIL_VARIANTS[case['role']])
    return case


def shrink(case, fails):
    """greedy: drop events / shorten the horizon while `fails(case)` stays true"""
    cur = dict(case, events=[list(e) for e in case['events']])
    changed = True
    budget = 60
    while changed and budget > 0:
        changed = False
        for i in range(len(cur['events'])):
            budget -= 1
            cand = dict(cur, events=cur['events'][:i] + cur['events'][i + 1:])
            if fails(cand):
                cur, changed = cand, True
                break
        if not changed:
            last = max([e[0] for e in cur['events']], default=0)
            for h in (last + 1, (cur['horizon'] + last) // 2 | 1):
                if last < h < cur['horizon']:
                    budget -= 1
                    cand = dict(cur, horizon=h)
                    if fails(cand):
                        cur, changed = cand, True
                        break
    return cur


def load_corpus(prop):
    import json
    out = []
    d = os.path.join(common.VERIF, 'corpus', prop)
    if os.path.isdir(d):
        for f in sorted(os.listdir(d)):
            if f.endswith('.json'):
                out.append(json.load(open(os.path.join(d, f))))
    return out


CASE_KEYS = ('role', 'ci', 'si', 'events', 'horizon')
OPT_KEYS = ('hw', 'lw', 'loginlat')


def case_of(d):
    """the case inside a corpus / replay dict"""
    c = {k: d[k] for k in CASE_KEYS}
    c.update({k: d[k] for k in OPT_KEYS if d.get(k) is not None})
    return c


def describe(case):
    ev = ' '.join(f'{t}:{e}' for t, e in case['events'][:40])
    opt = ''.join(f' {k}={case[k]}' for k in OPT_KEYS if case.get(k) is not None)
    return f"{case['role']} ci={case['ci']} si={case['si']}{opt} H={case['horizon']} [{ev}]"
