"""C06 — session machine check (see harness/sess_checks.py, Model/Session.lean, Props/C06.lean)."""
import sess_checks

DRIVER = 'drv_C05'
LEAN_TARGETS = ['NasdaqModel.Props.C06', 'drv_C05']


def run(ctx):
    sess_checks.run_family(ctx, 'C06')


def replay(ctx, path):
    sess_checks.replay_family(ctx, 'C06', path)
