"""C06 — session machine check (see harness/sess_checks.py, Model/Session.lean, Props/C06.lean), plus the lifetimes on a transport
with write flow control (harness/flow_scen.py: pause_writing / resume_writing / connection_lost delivered around and after the close)."""
import json

import sess_checks
import flow_scen
import sess_r7

DRIVER = 'drv_C05'
LEAN_TARGETS = ['NasdaqModel.Props.C06', 'drv_C05']


def run(ctx):
    sess_checks.run_family(ctx, 'C06')
    flow_scen.run_flow(ctx, 'C06')
    sess_r7.run_r7(ctx, 'C06')


def replay(ctx, path):
    r = json.load(open(path))
    rep = r.get('replay') or (r.get('no_longer_checks') or [{}])[-1].get('case') or r
    if isinstance(rep, dict) and 'r7_scenario' in rep:
        sess_r7.replay_r7(ctx, 'C06', rep)
    elif 'flow_scenario' in rep:
        flow_scen.replay_flow(ctx, 'C06', rep)
    else:
        sess_checks.replay_family(ctx, 'C06', path)
