"""Shared machinery of the /verif checks: repo import, Lean build + axiom audit, model driver, verdicts, evidence."""
import fcntl
import hashlib
import json
import os
import random
import re
import subprocess
import sys
import time

VERIF = os.path.dirname(os.path.dirname(os.path.abspath(__file__)))
REPO = os.environ.get('VERIF_REPO', '/repo')
LEAN_DIR = os.path.join(VERIF, 'lean')
BIN_DIR = os.path.join(LEAN_DIR, '.lake', 'build', 'bin')
ALLOWED_AXIOMS = {'propext', 'Classical.choice', 'Quot.sound'}
os.environ['NASDAQ_PROTOCOLS_VERIF'] = '1'          # hook guard (no hooks are currently needed)


def use_repo():
    """make `import nasdaq_protocols` resolve to REPO's current working tree"""
    src = os.path.join(REPO, 'src')
    if src in sys.path:
        sys.path.remove(src)
    sys.path.insert(0, src)
    for m in list(sys.modules):
        if m == 'nasdaq_protocols' or m.startswith('nasdaq_protocols.'):
            del sys.modules[m]
    import nasdaq_protocols
    assert os.path.realpath(nasdaq_protocols.__file__).startswith(os.path.realpath(src)), nasdaq_protocols.__file__
    import logging
    logging.disable(logging.CRITICAL)


# ---------------------------------------------------------------- s-expressions
def sx(x):
    """python value -> s-expression text.  tuple/list -> list, bytes -> x<hex>, int -> decimal, str -> atom"""
    if isinstance(x, (bytes, bytearray)):
        return 'x' + bytes(x).hex()
    if isinstance(x, bool):
        return 'true' if x else 'false'
    if isinstance(x, int):
        return str(x)
    if isinstance(x, str):
        assert x and not re.search(r'[()\s]', x), repr(x)
        return x
    if isinstance(x, (list, tuple)):
        return '(' + ' '.join(sx(e) for e in x) + ')'
    raise TypeError(type(x))


def cps(s):
    """a python str as a list of code points"""
    return [ord(c) for c in s]


def parse_sx(text):
    toks = re.findall(r'\(|\)|[^()\s]+', text)
    stack, cur = [], []
    for t in toks:
        if t == '(':
            stack.append(cur)
            cur = []
        elif t == ')':
            top = stack.pop()
            top.append(cur)
            cur = top
        else:
            cur.append(t)
    assert not stack
    return cur


# ---------------------------------------------------------------- exceptions -> small enum
def err_name(exc):
    import asyncio
    import struct
    name = type(exc).__name__
    table = [
        ('InvalidSoupMessage', 'invalid-soup'), ('DuplicateMessageException', 'dup'),
        ('StateError', 'state'), ('EndOfQueue', 'eoq'),
    ]
    for n, e in table:
        if name == n:
            return e
    if isinstance(exc, asyncio.CancelledError):
        return 'cancelled'
    if isinstance(exc, (asyncio.TimeoutError, TimeoutError)):
        return 'timeout'
    if isinstance(exc, ConnectionRefusedError):
        return 'refused'
    if isinstance(exc, OverflowError):
        return 'overflow'
    if isinstance(exc, UnicodeError):
        return 'unicode'
    if isinstance(exc, struct.error):
        return 'struct'
    if isinstance(exc, KeyError):
        return 'key'
    if isinstance(exc, IndexError):
        return 'index'
    if isinstance(exc, ValueError):
        return 'value'
    if isinstance(exc, TypeError):
        return 'type'
    if isinstance(exc, AttributeError):
        return 'attr'
    return 'other:' + name


# ---------------------------------------------------------------- Lean build, audit, driver
class Lean:
    """build state of the Lean side for one check run"""

    def __init__(self):
        self.build_ok = None
        self.build_log = ''
        self.audit = {}          # theorem -> list of axioms
        self.audit_ok = None
        self.audit_log = ''
        self.checker_ok = None   # leanchecker (thorough tier only): None = not run
        self.checker_log = ''
        self.checker_mods = []

    def build(self, targets):
        t0 = time.time()
        key = sorted(set(re.findall(r'C\d\d', ' '.join(targets)))) or ['misc']
        lock = open(os.path.join(LEAN_DIR, '.build.lock.' + key[0]), 'w')
        fcntl.flock(lock, fcntl.LOCK_EX)
        try:
            p = subprocess.run(['lake', 'build', *targets], cwd=LEAN_DIR, capture_output=True, text=True)
        finally:
            fcntl.flock(lock, fcntl.LOCK_UN)
        self.build_ok = p.returncode == 0
        self.build_log = (p.stdout + p.stderr)[-20000:]
        self.build_s = time.time() - t0
        return self.build_ok

    def modules_of(self, prop_id):
        """(sub, module name, path) of the property's theorem files: Props/<id>.lean, Props/<id><Suffix>.lean (a further section
        of the same property, e.g. C05App.lean) and the same under Witness/"""
        out = []
        for sub in ('Props', 'Witness'):
            d = os.path.join(LEAN_DIR, 'NasdaqModel', sub)
            for f in sorted(os.listdir(d)) if os.path.isdir(d) else []:
                if re.fullmatch(re.escape(prop_id) + r'([A-Z][A-Za-z0-9]*)?\.lean', f):
                    out.append((sub, f'NasdaqModel.{sub}.{f[:-5]}', os.path.join(d, f)))
        return out

    def theorems_of(self, prop_id):
        names = []
        for sub, _mod, path in self.modules_of(prop_id):
            src = open(path).read()
            # namespaces may be opened and closed several times in one file: track the innermost at each theorem
            ns = []
            for m in re.finditer(r'^(namespace|end|theorem)[ \t]+(\S+)', src, re.M):
                kw, name = m.group(1), m.group(2)
                if kw == 'namespace':
                    ns.append(name)
                elif kw == 'end':
                    if ns and ns[-1].split('.')[-1] == name.split('.')[-1]:
                        ns.pop()
                else:
                    names.append((sub, '.'.join(ns + [name])))
        return names

    def import_closure(self, prop_id):
        """the .lean files (inside the project) that Props/<id>.lean and Witness/<id>.lean depend on, transitively"""
        todo = [mod for _sub, mod, _p in self.modules_of(prop_id)]
        seen = {}
        while todo:
            m = todo.pop()
            if m in seen:
                continue
            path = os.path.join(LEAN_DIR, *m.split('.')) + '.lean'
            if not os.path.exists(path):
                continue
            src = open(path).read()
            seen[m] = (path, src)
            todo += re.findall(r'^import\s+(NasdaqModel\.\S+)', src, re.M)
        return seen

    def forbidden_tokens(self, prop_id):
        """sorry/admit/axiom/native_decide/... outside comments in everything the property's modules import (checked every run)"""
        bad = []
        pat = re.compile(r'\bsorry\b|\badmit\b|^axiom\s|native_decide|bv_decide|implemented_by|\bunsafe\s|maxHeartbeats\s+0\b', re.M)
        for m, (path, src) in sorted(self.import_closure(prop_id).items()):
            src = re.sub(r'/-.*?-/', '', src, flags=re.S)
            src = re.sub(r'--.*', '', src)
            for hit in pat.finditer(src):
                bad.append(f'{m}: {hit.group(0).strip()}')
        return bad

    def run_audit(self, prop_id):
        """`#print axioms` for every theorem of Props/<id>.lean and Witness/<id>.lean (cached on the .olean hashes)"""
        thms = self.theorems_of(prop_id)
        mods = sorted({mod for _sub, mod, _p in self.modules_of(prop_id)})
        key = hashlib.sha256()
        for m in mods:
            ol = os.path.join(LEAN_DIR, '.lake', 'build', 'lib', 'lean', *m.split('.')) + '.olean'
            key.update(open(ol, 'rb').read() if os.path.exists(ol) else b'missing')
        cache = os.path.join(LEAN_DIR, '.lake', f'audit-{prop_id}.json')
        if os.path.exists(cache):
            c = json.load(open(cache))
            if c.get('key') == key.hexdigest():
                self.audit, self.audit_log = c['audit'], c['log']
                self.audit_ok = c['axioms_ok'] and not self.forbidden_tokens(prop_id)
                return self.audit_ok
        src = '\n'.join(f'import {m}' for m in mods) + '\n' + '\n'.join(f'#print axioms {n}' for _, n in thms) + '\n'
        path = os.path.join(LEAN_DIR, '.lake', f'Audit_{prop_id}.lean')
        open(path, 'w').write(src)
        p = subprocess.run(['lake', 'env', 'lean', path], cwd=LEAN_DIR, capture_output=True, text=True)
        out = p.stdout + p.stderr
        audit = {}
        for m in re.finditer(r"'([^']+)' depends on axioms: \[([^\]]*)\]", out):
            audit[m.group(1)] = [a.strip() for a in m.group(2).replace('\n', ' ').split(',') if a.strip()]
        for m in re.finditer(r"'([^']+)' does not depend on any axioms", out):
            audit[m.group(1)] = []
        axioms_ok = p.returncode == 0 and all(n in audit for _, n in thms) and \
            all(set(ax) <= ALLOWED_AXIOMS for ax in audit.values())
        ok = axioms_ok and not self.forbidden_tokens(prop_id)
        self.audit, self.audit_ok, self.audit_log = audit, ok, out[-5000:]
        if p.returncode == 0:       # only the #print axioms part is cached; the token grep runs every time
            json.dump({'key': key.hexdigest(), 'audit': audit, 'axioms_ok': axioms_ok, 'log': self.audit_log}, open(cache, 'w'))
        return ok


    def run_leanchecker(self, prop_id):
        """thorough tier: Lean's independent re-checker replays every declaration of every project module the property's theorem
        files import (transitively) through the kernel again"""
        mods = sorted(self.import_closure(prop_id))
        t0 = time.time()
        p = subprocess.run(['lake', 'env', 'leanchecker', *mods], cwd=LEAN_DIR, capture_output=True, text=True)
        out = (p.stdout + p.stderr)
        out = '\n'.join(l for l in out.splitlines() if 'WARNING conda' not in l)
        self.checker_ok = p.returncode == 0 and 'uncaught exception' not in out and 'error' not in out.lower()
        self.checker_log = out[-3000:]
        self.checker_mods = mods
        self.checker_s = round(time.time() - t0, 1)
        return self.checker_ok


class Driver:
    """the compiled Lean model driver behind a line protocol; batches requests"""

    def __init__(self, exe):
        self.exe = os.path.join(BIN_DIR, exe)
        self.available = os.path.exists(self.exe)

    def ask(self, lines):
        if not lines:
            return []
        p = subprocess.run([self.exe], input='\n'.join(lines) + '\n', capture_output=True, text=True)
        if p.returncode != 0:
            raise RuntimeError(f'driver failed: {p.stderr[-2000:]}')
        out = p.stdout.split('\n')
        if out and out[-1] == '':
            out.pop()
        if len(out) != len(lines):
            raise RuntimeError(f'driver answered {len(out)} lines for {len(lines)} requests')
        return out


# ---------------------------------------------------------------- known findings
def load_known(prop_id):
    """entries of the committed known-findings file (never written at run time)"""
    out = []
    path = os.path.join(VERIF, 'known_findings.json')
    if os.path.exists(path):
        out += json.load(open(path)).get('findings', [])
    return [e for e in out if e['property'] == prop_id and e['status'] == 'known']


# ---------------------------------------------------------------- run context
class Ctx:
    def __init__(self, prop_id, tier, seed):
        self.prop = prop_id
        self.tier = tier
        self.seed = seed
        self.rng = random.Random(f'{prop_id}-{seed}')
        self.t0 = time.time()
        self.lean = Lean()
        self.driver = None
        self.violations = []        # (kind, description, replay dict)
        self.known_hits = []        # (finding id, description)
        self.disagreements = []     # model vs impl (not yet violations)
        self.cov = {'evaluations': 0, 'distinct_nontrivial': 0, 'rule': '', 'samples': [], 'histogram': {}}
        self.notes = []
        self._distinct = set()

    # ---- coverage bookkeeping
    def count(self, key, n=1):
        h = self.cov['histogram']
        h[key] = h.get(key, 0) + n

    def case(self, case_repr, nontrivial=True, sample_every=0):
        self.cov['evaluations'] += 1
        if nontrivial:
            hsh = hashlib.md5(repr(case_repr).encode()).digest()
            if hsh not in self._distinct:
                self._distinct.add(hsh)
                self.cov['distinct_nontrivial'] += 1
        if len(self.cov['samples']) < 6 and (sample_every == 0 or self.cov['evaluations'] % sample_every == 1):
            self.cov['samples'].append(case_repr if isinstance(case_repr, (dict, list, str, int)) else repr(case_repr))

    # ---- verdict bookkeeping
    def violation(self, what, replay):
        """oracle failure on the implementation: a concrete failing input"""
        for k in load_known(self.prop):
            if matches_known(k, replay):
                if k['id'] not in [x[0] for x in self.known_hits]:
                    self.known_hits.append((k['id'], k['what']))
                return
        if len(self.violations) < 20:
            self.violations.append((what, replay))

    def disagree(self, what, replay):
        """model and implementation differ on an observable (a broken correspondence, not yet a violation)"""
        if len(self.disagreements) < 20:
            self.disagreements.append((what, replay))


def matches_known(k, replay):
    sig = k.get('signature', {})
    return all(replay.get(a) == b for a, b in sig.items())


def finish(ctx, n_theorems_expected=None):
    """print verdict lines, write evidence, return exit code"""
    lean = ctx.lean
    thms = lean.theorems_of(ctx.prop)
    prop_thms = [n for sub, n in thms if sub == 'Props']
    discharged = [n for n in prop_thms if n in lean.audit and set(lean.audit[n]) <= ALLOWED_AXIOMS] \
        if (lean.build_ok and lean.audit_ok is not None) else []
    proof_broken = (not lean.build_ok) or (not lean.audit_ok) or len(discharged) != len(prop_thms) or not prop_thms \
        or lean.checker_ok is False
    os.makedirs(os.path.join(VERIF, 'replays'), exist_ok=True)
    rc = 0
    for fid, what in ctx.known_hits:
        print(f'KNOWN-FINDING: property={ctx.prop} {fid}: {what}')
    if ctx.violations:
        what, replay = ctx.violations[0]
        path = os.path.join(VERIF, 'replays', f'{ctx.prop}-seed{ctx.seed}.json')
        json.dump({'property': ctx.prop, 'kind': 'failing-input', 'what': what, 'replay': replay,
                   'more': [{'what': w, 'replay': r} for w, r in ctx.violations[1:6]],
                   'disagreements': [{'what': w, 'replay': r} for w, r in ctx.disagreements[:5]]},
                  open(path, 'w'), indent=1, default=repr)
        print(f'VIOLATION property={ctx.prop} replay={path}')
        print(f'  {what}')
        rc = 1
    elif proof_broken or ctx.disagreements:
        path = os.path.join(VERIF, 'replays', f'{ctx.prop}-seed{ctx.seed}.json')
        broken = []
        if not lean.build_ok:
            broken.append({'lake build failed': lean.build_log[-3000:]})
        elif not lean.audit_ok or len(discharged) != len(prop_thms):
            broken.append({'axiom audit failed': lean.audit_log[-3000:], 'forbidden': lean.forbidden_tokens(ctx.prop)})
        elif lean.checker_ok is False:
            broken.append({'leanchecker rejected the compiled modules': lean.checker_log})
        for w, r in ctx.disagreements[:10]:
            broken.append({'correspondence': w, 'case': r})
        json.dump({'property': ctx.prop, 'kind': 'no-failing-input-found',
                   'no_longer_checks': broken,
                   'searched': ctx.cov['evaluations']}, open(path, 'w'), indent=1, default=repr)
        print(f'VIOLATION property={ctx.prop} replay={path} no-failing-input-found')
        if ctx.disagreements:
            print(f'  correspondence broken: {ctx.disagreements[0][0]}')
        rc = 1
    cov = dict(ctx.cov)
    cov.update({
        'obligations': max(len(prop_thms), 1),
        'discharged': len(discharged),
        'theorems': prop_thms,
        'witness_theorems': [n for sub, n in thms if sub == 'Witness'],
        'axioms': {n: lean.audit.get(n) for _, n in thms},
        'checker_cmd': f'cd {LEAN_DIR} && lake build ' + ' '.join(m for _s, m, _p in lean.modules_of(ctx.prop))
                       + f' && lake env lean .lake/Audit_{ctx.prop}.lean'
                       + (' && lake env leanchecker ' + ' '.join(lean.checker_mods) if lean.checker_ok is not None else ''),
        'leanchecker': ({'ok': lean.checker_ok, 'modules': len(lean.checker_mods), 'wall_s': lean.checker_s}
                        if lean.checker_ok is not None else 'not run in this tier'),
        'trusted_base': [
            'Lean 4.33.0 kernel' + (f' + leanchecker re-check of {len(lean.checker_mods)} modules' if lean.checker_ok else ''),
            'axioms: ' + ', '.join(sorted({a for n in prop_thms for a in (lean.audit.get(n) or [])})) ,
            'hand-written Lean model tied to the code by this run\'s correspondence check (harness/' + ctx.prop.lower() + '.py)',
            'Python semantics layer NasdaqModel/Py (int.to_bytes, slicing, strip, struct, int()) — exercised by the correspondence',
        ],
        'traces_validated_against_impl': ctx.cov['evaluations'],
        'disagreements_checked': len(ctx.disagreements),
        'known_findings_hit': [k for k, _ in ctx.known_hits],
        'notes': ctx.notes,
    })
    ev = {
        'property_id': ctx.prop, 'tier': ctx.tier, 'seed': ctx.seed, 'level': 'proof',
        'coverage': cov,
        'assumptions': [
            'the theorem is about the Lean model; the model/implementation tie is differential testing on the generated cases counted above',
            f'repository under test: {REPO} (working tree)',
        ] + ctx.notes,
        'wall_s': round(time.time() - ctx.t0, 2),
        'violations': len(ctx.violations) + (1 if (rc == 1 and not ctx.violations) else 0),
    }
    evdir = os.environ.get('VERIF_EVIDENCE_DIR') or os.path.join(VERIF, 'evidence')   # scratch dir when testing mutants
    os.makedirs(evdir, exist_ok=True)
    json.dump(ev, open(os.path.join(evdir, f'{ctx.prop}.json'), 'w'), indent=1, default=repr)
    print(f'{ctx.prop} tier={ctx.tier} seed={ctx.seed}: theorems {len(discharged)}/{len(prop_thms)} '
          f'cases={cov["evaluations"]} distinct={cov["distinct_nontrivial"]} disagreements={len(ctx.disagreements)} '
          f'violations={len(ctx.violations)} known={len(ctx.known_hits)} wall={ev["wall_s"]}s rc={rc}')
    return rc
